(* C14 — proofs. *)
From KG Require Import Prelude Sched C14_Model C14_Spec.
From Coq Require Import ZifyBool ZifyNat.
Open Scope Z_scope.
Arguments Z.add : simpl never.
Arguments Z.sub : simpl never.
Arguments Z.mul : simpl never.
Arguments Z.leb : simpl never.
Arguments Z.ltb : simpl never.
Arguments Z.eqb : simpl never.
Arguments Z.div : simpl never.
Arguments Z.modulo : simpl never.
Arguments Z.of_nat : simpl never.

(* ------------------------------------------------------------------------- *)
(* residue-class counting                                                      *)
(* ------------------------------------------------------------------------- *)

Lemma div_succ k x : 0 < k -> (x + 1) / k = x / k + (if (x + 1) mod k =? 0 then 1 else 0).
Proof.
  intros Hk.
  pose proof (Z.div_mod x k ltac:(lia)) as E. pose proof (Z.mod_pos_bound x k Hk) as B.
  destruct (Z.eq_dec (x mod k) (k - 1)) as [Hr|Hr].
  - assert (D : (x + 1) / k = x / k + 1).
    { symmetry. apply (Z.div_unique (x + 1) k (x / k + 1) 0); [lia|]. rewrite Z.mul_add_distr_l. lia. }
    assert (M : (x + 1) mod k = 0).
    { symmetry. apply (Z.mod_unique (x + 1) k (x / k + 1) 0); [lia|]. rewrite Z.mul_add_distr_l. lia. }
    rewrite D, M. reflexivity.
  - assert (D : (x + 1) / k = x / k).
    { symmetry. apply (Z.div_unique (x + 1) k (x / k) (x mod k + 1)); lia. }
    assert (M : (x + 1) mod k = x mod k + 1).
    { symmetry. apply (Z.mod_unique (x + 1) k (x / k) (x mod k + 1)); lia. }
    rewrite D, M. replace (x mod k + 1 =? 0) with false by lia. lia.
Qed.

Lemma mod_shift k a j : 0 < k -> 0 <= j < k -> (a mod k =? j) = ((a - j) mod k =? 0).
Proof.
  intros Hk Hj.
  pose proof (Z.div_mod a k ltac:(lia)) as E. pose proof (Z.mod_pos_bound a k Hk) as B.
  destruct (Z_le_gt_dec j (a mod k)) as [L|G].
  - assert (M : (a - j) mod k = a mod k - j).
    { symmetry. apply (Z.mod_unique (a - j) k (a / k) (a mod k - j)); lia. }
    rewrite M. lia.
  - assert (M : (a - j) mod k = a mod k - j + k).
    { symmetry. apply (Z.mod_unique (a - j) k (a / k - 1) (a mod k - j + k)); [lia|].
      rewrite Z.mul_sub_distr_l. lia. }
    rewrite M. lia.
Qed.

(* number of i in 1..n with (a + i) mod k = j, closed form *)
Lemma cnt_closed k j a n :
  0 < k -> 0 <= j < k ->
  cntf (fun i => (a + i) mod k) j n = (a + Z.of_nat n - j) / k - (a - j) / k.
Proof.
  intros Hk Hj. induction n as [|m IH].
  - simpl. replace (a + Z.of_nat 0 - j) with (a - j) by lia. lia.
  - cbn [cntf]. rewrite IH. rewrite (mod_shift k _ j Hk Hj).
    replace (a + Z.of_nat (S m) - j) with ((a + Z.of_nat m - j) + 1) by lia.
    rewrite (div_succ k (a + Z.of_nat m - j) Hk). lia.
Qed.

Lemma div_window k x N :
  0 < k -> 0 <= N ->
  N / k <= (x + N) / k - x / k <= N / k + 1 /\ (N mod k = 0 -> (x + N) / k - x / k = N / k).
Proof.
  intros Hk HN.
  pose proof (Z.div_mod x k ltac:(lia)) as Ex. pose proof (Z.mod_pos_bound x k Hk) as Bx.
  pose proof (Z.div_mod N k ltac:(lia)) as En. pose proof (Z.mod_pos_bound N k Hk) as Bn.
  destruct (Z_lt_le_dec (x mod k + N mod k) k) as [L|G].
  - assert (D : (x + N) / k = x / k + N / k).
    { symmetry. apply (Z.div_unique (x + N) k (x / k + N / k) (x mod k + N mod k)); [lia|].
      rewrite Z.mul_add_distr_l. lia. }
    rewrite D. split; [lia|]. intros; lia.
  - assert (D : (x + N) / k = x / k + N / k + 1).
    { symmetry. apply (Z.div_unique (x + N) k (x / k + N / k + 1) (x mod k + N mod k - k)); [lia|].
      rewrite !Z.mul_add_distr_l. lia. }
    rewrite D. split; [lia|]. intros H0. lia.
Qed.

Lemma ceil_div_spec N k : 0 < k -> 0 <= N ->
  ceil_div N k = N / k + (if N mod k =? 0 then 0 else 1).
Proof.
  intros Hk HN. unfold ceil_div.
  pose proof (Z.div_mod N k ltac:(lia)) as En. pose proof (Z.mod_pos_bound N k Hk) as Bn.
  destruct (N mod k =? 0) eqn:E.
  - symmetry. apply (Z.div_unique (N + k - 1) k (N / k + 0) (k - 1)); [lia|]. lia.
  - symmetry. apply (Z.div_unique (N + k - 1) k (N / k + 1) (N mod k - 1)); [lia|].
    rewrite Z.mul_add_distr_l. lia.
Qed.

(* each residue class gets floor(N/k) or ceil(N/k) of any N consecutive integers *)
Lemma cnt_floor_ceil k j a n :
  0 < k -> 0 <= j < k ->
  let N := Z.of_nat n in
  N / k <= cntf (fun i => (a + i) mod k) j n <= ceil_div N k.
Proof.
  intros Hk Hj N. rewrite (cnt_closed k j a n Hk Hj).
  replace (a + Z.of_nat n - j) with ((a - j) + N) by (unfold N; lia).
  destruct (div_window k (a - j) N Hk ltac:(unfold N; lia)) as [[L U] Ex].
  rewrite (ceil_div_spec N k Hk ltac:(unfold N; lia)).
  destruct (N mod k =? 0) eqn:E; [rewrite Ex by lia; lia|lia].
Qed.

Lemma cntf_ext f g j n : (forall i, 1 <= i <= Z.of_nat n -> f i = g i) -> cntf f j n = cntf g j n.
Proof.
  induction n as [|m IH]; intros H; [reflexivity|]. cbn [cntf].
  rewrite IH by (intros i Hi; apply H; lia). rewrite H by lia. reflexivity.
Qed.

Lemma cntf_split f j n1 n2 :
  cntf f j (n1 + n2) = cntf f j n1 + cntf (fun i => f (Z.of_nat n1 + i)) j n2.
Proof.
  induction n2 as [|m IH].
  - rewrite Nat.add_0_r. simpl. lia.
  - rewrite Nat.add_succ_r. cbn [cntf]. rewrite IH.
    replace (Z.of_nat (S (n1 + m))) with (Z.of_nat n1 + Z.of_nat (S m)) by lia. lia.
Qed.

Lemma cntf_nonneg f j n : 0 <= cntf f j n.
Proof. induction n as [|m IH]; cbn [cntf]; [lia|]. destruct (f (Z.of_nat (S m)) =? j); lia. Qed.

(* ------------------------------------------------------------------------- *)
(* C14_strict and C14_wrap at the level of positions                           *)
(* ------------------------------------------------------------------------- *)

(* no wrap inside the window: strict floor / ceil *)
Theorem strict_idx k j a n :
  2 <= k -> 0 <= j < k -> 0 <= a -> a + Z.of_nat n < two64 ->
  let N := Z.of_nat n in
  N / k <= cntf (idx k a) j n <= ceil_div N k.
Proof.
  intros Hk Hj Ha Hw N.
  rewrite (cntf_ext (idx k a) (fun i => (a + i) mod k)).
  - apply cnt_floor_ceil; lia.
  - intros i Hi. unfold idx, wrapu64. rewrite (Z.mod_small (a + i)); [reflexivity|]. unfold two64 in *. lia.
Qed.

Lemma ceil_div_add k a b : 0 < k -> 0 <= a -> 0 <= b ->
  a / k + b / k >= (a + b) / k - 1 /\ ceil_div a k + ceil_div b k <= ceil_div (a + b) k + 1.
Proof.
  intros Hk Ha Hb.
  destruct (div_window k a b Hk Hb) as [[L U] _].
  split; [lia|].
  rewrite !ceil_div_spec by lia.
  pose proof (Z.div_mod a k ltac:(lia)) as Ea. pose proof (Z.mod_pos_bound a k Hk) as Ba.
  pose proof (Z.div_mod b k ltac:(lia)) as Eb. pose proof (Z.mod_pos_bound b k Hk) as Bb.
  pose proof (Z.div_mod (a + b) k ltac:(lia)) as Eab. pose proof (Z.mod_pos_bound (a + b) k Hk) as Bab.
  destruct (Z_lt_le_dec (a mod k + b mod k) k) as [Lt|Ge].
  - assert (D : (a + b) / k = a / k + b / k).
    { symmetry. apply (Z.div_unique (a + b) k (a / k + b / k) (a mod k + b mod k)); [lia|].
      rewrite Z.mul_add_distr_l. lia. }
    assert (M : (a + b) mod k = a mod k + b mod k).
    { symmetry. apply (Z.mod_unique (a + b) k (a / k + b / k) (a mod k + b mod k)); [lia|].
      rewrite Z.mul_add_distr_l. lia. }
    rewrite D, M. destruct (a mod k =? 0) eqn:E1; destruct (b mod k =? 0) eqn:E2;
      destruct (a mod k + b mod k =? 0) eqn:E3; lia.
  - assert (D : (a + b) / k = a / k + b / k + 1).
    { symmetry. apply (Z.div_unique (a + b) k (a / k + b / k + 1) (a mod k + b mod k - k)); [lia|].
      rewrite !Z.mul_add_distr_l. lia. }
    rewrite D. destruct (a mod k =? 0) eqn:E1; destruct (b mod k =? 0) eqn:E2;
      destruct ((a + b) mod k =? 0) eqn:E3; lia.
Qed.

(* at most one crossing of 2^64 inside the window: any count moves by at most 1 *)
Theorem wrap_idx k j a n :
  2 <= k -> 0 <= j < k -> 0 <= a < two64 -> Z.of_nat n <= two64 ->
  let N := Z.of_nat n in
  N / k - 1 <= cntf (idx k a) j n <= ceil_div N k + 1.
Proof.
  intros Hk Hj Ha Hn N.
  destruct (Z_lt_le_dec (a + N) two64) as [NoWrap|Wrap].
  - pose proof (strict_idx k j a n Hk Hj ltac:(lia) NoWrap) as H. simpl in H. fold N in H. lia.
  - (* the first n1 picks stay below 2^64, the remaining n2 continue from 0 *)
    set (n1 := Z.to_nat (two64 - a - 1)).
    assert (Hn1 : Z.of_nat n1 = two64 - a - 1) by (unfold n1; lia).
    assert (Le : (n1 <= n)%nat) by (unfold N in *; lia).
    set (n2 := (n - n1)%nat).
    assert (En : n = (n1 + n2)%nat) by (unfold n2; lia).
    rewrite En, cntf_split.
    pose proof (strict_idx k j a n1 Hk Hj ltac:(lia) ltac:(lia)) as H1. simpl in H1.
    assert (E2 : cntf (fun i => idx k a (Z.of_nat n1 + i)) j n2 = cntf (fun i => (-1 + i) mod k) j n2).
    { apply cntf_ext. intros i Hi. unfold idx, wrapu64.
      replace (a + (Z.of_nat n1 + i)) with ((i - 1) + 1 * two64) by lia.
      rewrite Z.mod_add by (unfold two64; lia).
      rewrite (Z.mod_small (i - 1)); [f_equal; lia|]. unfold N in *. lia. }
    rewrite E2.
    pose proof (cnt_floor_ceil k j (-1) n2 ltac:(lia) Hj) as H2. simpl in H2.
    assert (EN : N = Z.of_nat n1 + Z.of_nat n2) by (unfold N; lia).
    destruct (ceil_div_add k (Z.of_nat n1) (Z.of_nat n2) ltac:(lia) ltac:(lia) ltac:(lia)) as [A B].
    rewrite <- EN in A, B. lia.
Qed.

(* ------------------------------------------------------------------------- *)
(* the cursor map                                                              *)
(* ------------------------------------------------------------------------- *)

Lemma eplist_eqb_eq a b : eplist_eqb a b = true <-> a = b.
Proof. unfold eplist_eqb. apply list_eqb_eq. intros x y. apply Z.eqb_eq. Qed.
Lemma eplist_eqb_refl a : eplist_eqb a a = true.
Proof. apply eplist_eqb_eq. reflexivity. Qed.
Lemma eplist_eqb_neq a b : a <> b -> eplist_eqb a b = false.
Proof. intros H. apply not_true_iff_false. intros E. apply eplist_eqb_eq in E. contradiction. Qed.

Lemma get_set_eq cur key v : get (set cur key v) key = v.
Proof.
  induction cur as [|[k x] r IH]; simpl.
  - rewrite eplist_eqb_refl. reflexivity.
  - destruct (eplist_eqb key k) eqn:E; simpl; rewrite E; auto.
Qed.
Lemma get_set_neq cur key v key' : key' <> key -> get (set cur key v) key' = get cur key'.
Proof.
  intros Ne. induction cur as [|[k x] r IH]; simpl.
  - rewrite (eplist_eqb_neq key' key Ne). reflexivity.
  - destruct (eplist_eqb key k) eqn:E; simpl.
    + apply eplist_eqb_eq in E. subst k. rewrite (eplist_eqb_neq key' key Ne). reflexivity.
    + destruct (eplist_eqb key' k); auto.
Qed.

(* ------------------------------------------------------------------------- *)
(* Pop on a stable ready list = positions idx k a 1, idx k a 2, ...           *)
(* ------------------------------------------------------------------------- *)

Definition pick (rd : eplist) (z : Z) : pres :=
  match nth_error rd (Z.to_nat z) with Some e => POk e | None => PErr end.

Fixpoint pcount (e : Z) (l : list pres) : Z :=
  match l with
  | [] => 0
  | POk x :: r => (if x =? e then 1 else 0) + pcount e r
  | PErr :: r => pcount e r
  end.

Lemma pcount_app e a b : pcount e (a ++ b) = pcount e a + pcount e b.
Proof. induction a as [|[|x] r IH]; simpl; lia. Qed.

Lemma pop_many cur ups ok :
  let rd := filter ok ups in
  (2 <= List.length rd)%nat ->
  pop cur ups ok =
  (set cur rd (wrapu64 (get cur rd + 1)),
   pick rd (wrapu64 (get cur rd + 1) mod Z.of_nat (List.length rd))).
Proof.
  intros rd H. unfold pop. fold rd. destruct rd as [|x [|y r]]; simpl in H; try lia. reflexivity.
Qed.

Lemma wrapu64_succ a i : wrapu64 (wrapu64 (a + 1) + i) = wrapu64 (a + (i + 1)).
Proof.
  unfold wrapu64. rewrite Zplus_mod_idemp_l. f_equal. lia.
Qed.

Lemma idx_shift k a i : idx k (wrapu64 (a + 1)) i = idx k a (i + 1).
Proof. unfold idx. rewrite wrapu64_succ. reflexivity. Qed.

Fixpoint results (rd : eplist) (k a : Z) (n : nat) : list pres :=   (* picks 1..n, oldest first *)
  match n with
  | O => []
  | S m => results rd k a m ++ [pick rd (idx k a (Z.of_nat (S m)))]
  end.

Lemma results_cons rd k a n :
  results rd k a (S n) = pick rd (idx k a 1) :: results rd k (wrapu64 (a + 1)) n.
Proof.
  induction n as [|m IH].
  - reflexivity.
  - cbn [results] in *. rewrite IH. rewrite idx_shift. simpl app.
    replace (Z.of_nat (S m) + 1) with (Z.of_nat (S (S m))) by lia. reflexivity.
Qed.

(* n picks by pickers that all see the same upstream list and the same readiness *)
Theorem pop_stable ups ok n : forall cur,
  let rd := filter ok ups in
  let k := Z.of_nat (List.length rd) in
  2 <= k ->
  snd (pops cur (repeat ups n) ok) = results rd k (get cur rd) n.
Proof.
  induction n as [|m IH]; intros cur rd k Hk; [reflexivity|].
  cbn [repeat pops]. rewrite (pop_many cur ups ok) by (fold rd; lia). fold rd. fold k.
  specialize (IH (set cur rd (wrapu64 (get cur rd + 1))) Hk). fold rd in IH. fold k in IH.
  destruct (pops (set cur rd (wrapu64 (get cur rd + 1))) (repeat ups m) ok) as [c2 l] eqn:E.
  cbn [snd] in *. rewrite IH, get_set_eq, results_cons. unfold idx. reflexivity.
Qed.

(* position of an endpoint in a duplicate-free ready list *)
Fixpoint index_of (e : Z) (l : eplist) : Z :=
  match l with [] => 0 | x :: r => if x =? e then 0 else 1 + index_of e r end.

Lemma index_of_range e l : In e l -> 0 <= index_of e l < Z.of_nat (List.length l).
Proof.
  induction l as [|x r IH]; simpl; intros H; [contradiction|].
  destruct (x =? e) eqn:E; [lia|]. destruct H as [H|H]; [lia|]. specialize (IH H). lia.
Qed.

Lemma pick_index e l z :
  NoDup l -> In e l -> 0 <= z < Z.of_nat (List.length l) ->
  (pick l z = POk e <-> z = index_of e l).
Proof.
  unfold pick. revert z; induction l as [|x r IH]; intros z ND Hin Hz; [contradiction|].
  inversion ND as [|? ? Nx Nr]; subst. simpl index_of.
  destruct (Z.eq_dec z 0) as [->|Nz].
  - simpl. destruct (x =? e) eqn:E.
    + split; auto. intros _. f_equal. lia.
    + split; [intros H; injection H as H; lia|]. pose proof (index_of_range e r). intros H0.
      destruct Hin as [Hin|Hin]; [lia|]. specialize (H Hin). lia.
  - replace (Z.to_nat z) with (S (Z.to_nat (z - 1))) by lia. simpl nth_error.
    simpl List.length in Hz.
    destruct (x =? e) eqn:E.
    + assert (x = e) by lia. subst x. split; [|lia]. intros H.
      destruct (nth_error r (Z.to_nat (z - 1))) as [y|] eqn:Q; [|discriminate]. injection H as ->.
      apply nth_error_In in Q. contradiction.
    + destruct Hin as [Hin|Hin]; [lia|]. rewrite (IH (z - 1) Nr Hin ltac:(lia)). lia.
Qed.

Lemma pick_ok l z : 0 <= z < Z.of_nat (List.length l) -> exists e, pick l z = POk e /\ In e l.
Proof.
  intros Hz. unfold pick. destruct (nth_error l (Z.to_nat z)) as [e|] eqn:Q.
  - exists e. split; auto. eapply nth_error_In; eauto.
  - apply nth_error_None in Q. lia.
Qed.

Lemma idx_range k a i : 0 < k -> 0 <= idx k a i < k.
Proof. intros Hk. unfold idx. apply Z.mod_pos_bound. exact Hk. Qed.

Lemma pcount_results e rd a n :
  let k := Z.of_nat (List.length rd) in
  2 <= k -> NoDup rd -> In e rd ->
  pcount e (results rd k a n) = cntf (idx k a) (index_of e rd) n.
Proof.
  intros k Hk ND Hin. induction n as [|m IH]; [reflexivity|].
  cbn [results cntf]. rewrite pcount_app, IH. f_equal.
  pose proof (idx_range k a (Z.of_nat (S m)) ltac:(lia)) as R.
  destruct (pick_ok rd (idx k a (Z.of_nat (S m))) R) as [x [Px Ix]].
  pose proof (pick_index e rd (idx k a (Z.of_nat (S m))) ND Hin R) as PI.
  rewrite Px in *. simpl.
  destruct (x =? e) eqn:E.
  - assert (x = e) by lia. subst x. destruct PI as [PI _]. rewrite <- (PI eq_refl), Z.eqb_refl. lia.
  - destruct (idx k a (Z.of_nat (S m)) =? index_of e rd) eqn:E2; [|lia].
    destruct PI as [_ PI]. assert (Q : POk x = POk e) by (apply PI; lia). injection Q as ->. lia.
Qed.

Lemma idx_wrap k a i : idx k (wrapu64 a) i = idx k a i.
Proof. unfold idx, wrapu64. rewrite Zplus_mod_idemp_l. reflexivity. Qed.

Lemma results_ext rd k a b n : (forall i, idx k a i = idx k b i) -> results rd k a n = results rd k b n.
Proof. intros H. induction n as [|m IH]; [reflexivity|]. cbn [results]. rewrite IH, H. reflexivity. Qed.

Lemma results_length rd k a n : List.length (results rd k a n) = n.
Proof. induction n as [|m IH]; [reflexivity|]. cbn [results]. rewrite app_length, IH. simpl. lia. Qed.

Lemma results_app rd k a n1 n2 :
  results rd k a (n1 + n2) = results rd k a n1 ++ results rd k (a + Z.of_nat n1) n2.
Proof.
  revert a; induction n1 as [|m IH]; intros a.
  - simpl. apply results_ext. intros i. f_equal. lia.
  - replace (S m + n2)%nat with (S (m + n2)) by lia. rewrite !results_cons, IH. simpl. f_equal. f_equal.
    apply results_ext. intros i. rewrite <- (idx_wrap k (a + Z.of_nat (S m))), <- (idx_wrap k (wrapu64 (a + 1) + Z.of_nat m)).
    f_equal. unfold wrapu64. rewrite Zplus_mod_idemp_l. f_equal. lia.
Qed.

(* C14_strict: explicit subset, stable ready set, no uint64 wrap inside the run: over ANY window of N
   consecutive picks (n0 picks before it) every ready endpoint is chosen floor(N/k) or ceil(N/k) times *)
Theorem strict cur ups ok e n0 n :
  let rd := filter ok ups in
  let k := Z.of_nat (List.length rd) in
  let N := Z.of_nat n in
  2 <= k -> NoDup rd -> In e rd ->
  0 <= get cur rd -> get cur rd + Z.of_nat n0 + N < two64 ->
  let l := snd (pops cur (repeat ups (n0 + n)) ok) in
  N / k <= pcount e (skipn n0 l) <= ceil_div N k.
Proof.
  intros rd k N Hk ND Hin H0 Hw l. unfold l.
  rewrite (pop_stable ups ok (n0 + n) cur Hk). fold rd. fold k.
  rewrite results_app, skipn_app, results_length, Nat.sub_diag. simpl skipn at 2.
  rewrite (skipn_all2 (results rd k (get cur rd) n0)) by (rewrite results_length; lia). simpl app.
  rewrite (pcount_results e rd _ n Hk ND Hin). fold k.
  apply strict_idx; try lia. apply index_of_range. exact Hin.
Qed.

(* the same window when the counter crosses 2^64 inside it: off by at most one *)
Theorem wrap cur ups ok e n :
  let rd := filter ok ups in
  let k := Z.of_nat (List.length rd) in
  let N := Z.of_nat n in
  2 <= k -> NoDup rd -> In e rd ->
  0 <= get cur rd < two64 -> N <= two64 ->
  N / k - 1 <= pcount e (snd (pops cur (repeat ups n) ok)) <= ceil_div N k + 1.
Proof.
  intros rd k N Hk ND Hin H0 Hn.
  rewrite (pop_stable ups ok n cur Hk). fold rd. fold k.
  rewrite (pcount_results e rd _ n Hk ND Hin). fold k.
  apply wrap_idx; try lia. apply index_of_range. exact Hin.
Qed.

(* ------------------------------------------------------------------------- *)
(* concurrent pickers: every interleaving hands out consecutive values         *)
(* ------------------------------------------------------------------------- *)

Fixpoint seqlog (k c0 : Z) (T : nat) : list Z :=     (* positions of picks T, T-1, ..., 1 *)
  match T with O => [] | S m => idx k c0 (Z.of_nat (S m)) :: seqlog k c0 m end.

Fixpoint zcount (j : Z) (l : list Z) : Z :=
  match l with [] => 0 | x :: r => (if x =? j then 1 else 0) + zcount j r end.

Lemma zcount_seqlog k c0 j T : zcount j (seqlog k c0 T) = cntf (idx k c0) j T.
Proof. induction T as [|m IH]; [reflexivity|]. cbn [seqlog zcount cntf]. rewrite IH. lia. Qed.

Definition PInv (k c0 : Z) (j : Z) (st : config psh pth) : Prop :=
  let T := List.length (plog (fst st)) in
  cursor (fst st) = wrapu64 (c0 + Z.of_nat T) /\
  plog (fst st) = seqlog k c0 T /\
  sumT (fun t => zcount j (got t)) (snd st) = zcount j (plog (fst st)).

Lemma PInv_step k c0 j s ts i t :
  PInv k c0 j (s, ts) -> nth_error ts i = Some t ->
  PInv k c0 j (fst (pstep k s t), upd ts i (snd (pstep k s t))).
Proof.
  intros (Hc & Hl & Hs) E. unfold PInv in *; simpl in *. unfold pstep.
  destruct (todo t) as [|n] eqn:Td; simpl.
  - repeat split; auto. rewrite (sumT_upd _ _ _ _ _ E). lia.
  - destruct (atadd t) eqn:At; simpl.
    + set (T := List.length (plog s)) in *.
      assert (Ec : wrapu64 (cursor s + 1) = wrapu64 (c0 + Z.of_nat (S T))).
      { rewrite Hc. unfold wrapu64. rewrite Zplus_mod_idemp_l. f_equal. lia. }
      repeat split.
      * exact Ec.
      * cbn [seqlog]. unfold idx. rewrite <- Ec. f_equal. exact Hl.
      * rewrite (sumT_upd _ _ _ _ _ E). simpl. lia.
    + (* the atomic get-or-create: nothing observable changes *)
      repeat split; auto. rewrite (sumT_upd _ _ _ _ _ E). simpl. lia.
Qed.

Lemma PInv_init k c0 j picks : 0 <= c0 < two64 -> PInv k c0 j (pinit c0 picks).
Proof.
  intros H. unfold PInv, pinit; simpl. repeat split.
  - unfold wrapu64. rewrite Z.mod_small; lia.
  - induction picks as [|p r IH]; simpl; lia.
Qed.

(* C14_concurrent: whatever the number of picker goroutines, their pick counts and the schedule,
   the picks in the order of their atomic adds are exactly the sequential round-robin sequence
   idx(c0+1), idx(c0+2), ...; every goroutine's picks are a part of it (same multiset overall); hence
   after T picks in total every position has been chosen floor(T/k) or ceil(T/k) times *)
Theorem concurrent k c0 picks sched j :
  2 <= k -> 0 <= j < k -> 0 <= c0 < two64 ->
  let st := run (pstep k) (pinit c0 picks) sched in
  let T := List.length (plog (fst st)) in
  plog (fst st) = seqlog k c0 T /\
  sumT (fun t => zcount j (got t)) (snd st) = zcount j (plog (fst st)) /\
  (c0 + Z.of_nat T < two64 ->
   Z.of_nat T / k <= zcount j (plog (fst st)) <= ceil_div (Z.of_nat T) k).
Proof.
  intros Hk Hj Hc st T.
  assert (I : PInv k c0 j st).
  { apply (invariant_lifting (pstep k) (PInv k c0 j)); [|apply PInv_init; auto].
    intros s ts i t H E. apply PInv_step; auto. }
  destruct I as (I1 & I2 & I3). fold T in I1, I2.
  split; [exact I2|]. split; [exact I3|].
  intros Hw. rewrite I2, zcount_seqlog. apply strict_idx; lia.
Qed.

(* ------------------------------------------------------------------------- *)
(* policies without explicit subset: an adversary chooses the order per pick    *)
(* ------------------------------------------------------------------------- *)

Lemma mod_succ k x : 0 < k -> (x + 1) mod k = if x mod k =? k - 1 then 0 else x mod k + 1.
Proof.
  intros Hk.
  pose proof (Z.div_mod x k ltac:(lia)) as E. pose proof (Z.mod_pos_bound x k Hk) as B.
  destruct (x mod k =? k - 1) eqn:Q.
  - symmetry. apply (Z.mod_unique (x + 1) k (x / k + 1) 0); [lia|]. rewrite Z.mul_add_distr_l. lia.
  - symmetry. apply (Z.mod_unique (x + 1) k (x / k) (x mod k + 1)); lia.
Qed.

Section Unordered.
  Variable e : Z.
  Variable k : Z.
  Hypothesis Hk : 2 <= k.

  Definition termv (c : Z) (p : eplist) : Z := (c - index_of e p) mod k.
  Fixpoint Phi (K : list eplist) (cur : cursors) : Z :=
    match K with [] => 0 | p :: r => termv (get cur p) p + Phi r cur end.

  Lemma termv_range c p : 0 <= termv c p <= k - 1.
  Proof. unfold termv. pose proof (Z.mod_pos_bound (c - index_of e p) k ltac:(lia)). lia. Qed.

  Lemma Phi_range K cur : 0 <= Phi K cur <= Z.of_nat (List.length K) * (k - 1).
  Proof.
    induction K as [|p r IH]; simpl Phi; simpl List.length; [lia|].
    pose proof (termv_range (get cur p) p). nia.
  Qed.

  Lemma Phi_set_notin K cur p v : ~ In p K -> Phi K (set cur p v) = Phi K cur.
  Proof.
    induction K as [|q r IH]; intros H; simpl; [reflexivity|].
    rewrite get_set_neq by (intros ->; apply H; left; reflexivity). rewrite IH; [reflexivity|].
    intros H'; apply H; right; exact H'.
  Qed.

  Lemma Phi_set K cur p v : NoDup K -> In p K ->
    Phi K (set cur p v) = Phi K cur - termv (get cur p) p + termv v p.
  Proof.
    induction K as [|q r IH]; intros ND Hin; [contradiction|].
    inversion ND as [|? ? Nq Nr]; subst. simpl.
    destruct Hin as [->|Hin].
    - rewrite get_set_eq, Phi_set_notin by exact Nq. lia.
    - rewrite get_set_neq by (intros ->; contradiction). rewrite IH by auto. lia.
  Qed.

  (* a pick on ready list [p] (length k, no duplicates, contains e, cursor not at the wrap):
     k * [e picked] - 1 = potential before - potential after *)
  Lemma pick_potential c p :
    Z.of_nat (List.length p) = k -> NoDup p -> In e p -> 0 <= c -> c + 1 < two64 ->
    k * pcount e [pick p (wrapu64 (c + 1) mod k)] - 1 = termv c p - termv (wrapu64 (c + 1)) p.
  Proof.
    intros Lp ND Hin H0 Hw.
    assert (W : wrapu64 (c + 1) = c + 1) by (unfold wrapu64; apply Z.mod_small; lia). rewrite W.
    pose proof (index_of_range e p Hin) as Rj. rewrite Lp in Rj.
    pose proof (Z.mod_pos_bound (c + 1) k ltac:(lia)) as Rz.
    destruct (pick_ok p ((c + 1) mod k) ltac:(lia)) as [x [Px Ix]].
    pose proof (pick_index e p ((c + 1) mod k) ND Hin ltac:(lia)) as PI. rewrite Px in *.
    unfold termv. replace (c + 1 - index_of e p) with ((c - index_of e p) + 1) by lia.
    rewrite (mod_succ k (c - index_of e p)) by lia.
    pose proof (mod_shift k (c + 1) (index_of e p) ltac:(lia) Rj) as MS.
    replace (c + 1 - index_of e p) with ((c - index_of e p) + 1) in MS by lia.
    rewrite (mod_succ k (c - index_of e p)) in MS by lia.
    pose proof (Z.mod_pos_bound (c - index_of e p) k ltac:(lia)) as Rr.
    simpl pcount.
    destruct ((c - index_of e p) mod k =? k - 1) eqn:Q.
    - (* r = k-1: the pick lands on e *)
      assert (Hj : (c + 1) mod k = index_of e p) by lia.
      destruct PI as [_ PI]. specialize (PI Hj). injection PI as ->. rewrite Z.eqb_refl. lia.
    - assert (Hj : (c + 1) mod k <> index_of e p) by lia.
      destruct (x =? e) eqn:Ex.
      + exfalso. apply Hj. apply PI. f_equal. lia.
      + lia.
  Qed.

  (* every pick's ready list has k entries, no duplicates, contains e *)
  Definition good_order (ok : Z -> bool) (u : eplist) : Prop :=
    Z.of_nat (List.length (filter ok u)) = k /\ NoDup (filter ok u) /\ In e (filter ok u).

  Lemma unordered_gen ok K : NoDup K -> forall orders cur,
    Forall (good_order ok) orders -> Forall (fun u => In (filter ok u) K) orders ->
    (forall p, 0 <= get cur p /\ get cur p + Z.of_nat (List.length orders) < two64) ->
    k * pcount e (snd (pops cur orders ok)) - Z.of_nat (List.length orders) =
    Phi K cur - Phi K (fst (pops cur orders ok)).
  Proof.
    intros NK. induction orders as [|u r IH]; intros cur G I W.
    - simpl. lia.
    - inversion G as [|? ? G1 G2]; subst. inversion I as [|? ? I1 I2]; subst.
      destruct G1 as (Lp & ND & Hin).
      cbn [pops]. rewrite (pop_many cur u ok) by lia. rewrite Lp.
      set (p := filter ok u) in *. set (c := get cur p).
      destruct (W p) as [W0 W1]. fold c in W0, W1. simpl List.length in W1.
      set (cur1 := set cur p (wrapu64 (c + 1))).
      assert (W' : forall q, 0 <= get cur1 q /\ get cur1 q + Z.of_nat (List.length r) < two64).
      { intros q. unfold cur1. destruct (list_eq_dec Z.eq_dec q p) as [->|Ne].
        - rewrite get_set_eq. unfold wrapu64. rewrite Z.mod_small by lia. lia.
        - rewrite get_set_neq by exact Ne. destruct (W q). simpl List.length in *. lia. }
      specialize (IH cur1 G2 I2 W').
      destruct (pops cur1 r ok) as [c2 l] eqn:E. cbn [fst snd] in *.
      change (pick p (wrapu64 (c + 1) mod k) :: l) with ([pick p (wrapu64 (c + 1) mod k)] ++ l).
      rewrite pcount_app.
      pose proof (pick_potential c p Lp ND Hin W0 ltac:(lia)) as PP.
      assert (PS : Phi K cur1 = Phi K cur - termv c p + termv (wrapu64 (c + 1)) p).
      { unfold cur1, c. apply Phi_set; auto. }
      simpl List.length. lia.
  Qed.
End Unordered.

Lemma sandwich X N A B Bd : X - N = A - B -> 0 <= A <= Bd -> 0 <= B <= Bd -> - Bd <= X - N <= Bd.
Proof. lia. Qed.

(* C14_unordered: the upstream order of every pick is arbitrary (one cursor per distinct ready list);
   with P distinct ready lists in the window:  |k * count(e) - N| <= P * (k - 1), independent of N *)
Theorem unordered e ok orders cur :
  let k := Z.of_nat (List.length (filter ok (hd [] orders))) in
  let N := Z.of_nat (List.length orders) in
  let P := Z.of_nat (List.length (nodup (list_eq_dec Z.eq_dec) (map (filter ok) orders))) in
  2 <= k ->
  Forall (fun u => Z.of_nat (List.length (filter ok u)) = k /\ NoDup (filter ok u) /\ In e (filter ok u)) orders ->
  (forall p, 0 <= get cur p /\ get cur p + N < two64) ->
  let c := pcount e (snd (pops cur orders ok)) in
  - (P * (k - 1)) <= k * c - N <= P * (k - 1).
Proof.
  intros k N P Hk G W c.
  set (K := nodup (list_eq_dec Z.eq_dec) (map (filter ok) orders)).
  assert (NK : NoDup K) by apply NoDup_nodup.
  assert (IK : Forall (fun u => In (filter ok u) K) orders).
  { apply Forall_forall. intros u Hu. unfold K. apply nodup_In. apply in_map. exact Hu. }
  pose proof (unordered_gen e k Hk ok K NK orders cur G IK W) as E.
  pose proof (Phi_range e k Hk K cur) as R1.
  pose proof (Phi_range e k Hk K (fst (pops cur orders ok))) as R2.
  exact (sandwich _ _ _ _ _ E R1 R2).
Qed.

(* ------------------------------------------------------------------------- *)
(* the model's pick sequences pass the executable strict checker (C14_Spec)     *)
(* ------------------------------------------------------------------------- *)

Definition pres_code (p : pres) : Z := match p with PErr => -1 | POk e => e end.

Lemma bump_map (f : Z -> Z) eps x :
  bump eps (map f eps) x = map (fun e => if e =? x then f e + 1 else f e) eps.
Proof.
  unfold bump. induction eps as [|e r IH]; simpl; [reflexivity|]. f_equal. exact IH.
Qed.

Lemma prefixes_model rd a :
  let k := Z.of_nat (List.length rd) in
  2 <= k -> NoDup rd -> 0 <= a ->
  forall n w, a + Z.of_nat w + Z.of_nat n < two64 ->
  prefixes_ok (fc_ok k) rd (map (fun e => pcount e (results rd k a w)) rd) (Z.of_nat w)
              (map pres_code (results rd k (a + Z.of_nat w) n)) = true.
Proof.
  intros k Hk ND Ha. induction n as [|m IH]; intros w Hw; [reflexivity|].
  rewrite results_cons. cbn [map prefixes_ok].
  pose proof (idx_range k (a + Z.of_nat w) 1 ltac:(lia)) as R.
  destruct (pick_ok rd (idx k (a + Z.of_nat w) 1) R) as [x [Px Ix]]. rewrite Px. cbn [pres_code].
  rewrite bump_map.
  assert (EQ : map (fun e => if e =? x then pcount e (results rd k a w) + 1 else pcount e (results rd k a w)) rd =
               map (fun e => pcount e (results rd k a (S w))) rd).
  { apply map_ext. intros e. cbn [results]. rewrite pcount_app.
    replace (idx k a (Z.of_nat (S w))) with (idx k (a + Z.of_nat w) 1) by (unfold idx; f_equal; f_equal; lia).
    rewrite Px. simpl. rewrite (Z.eqb_sym e x). destruct (x =? e); lia. }
  rewrite EQ. apply andb_true_iff. split.
  - apply forallb_forall. intros c Hc. apply in_map_iff in Hc as [e [<- He]].
    pose proof (pcount_results e rd a (S w) Hk ND He) as PR. fold k in PR. rewrite PR.
    pose proof (strict_idx k (index_of e rd) a (S w) Hk (index_of_range e rd He) Ha ltac:(lia)) as B.
    cbv zeta in B. unfold fc_ok. replace (Z.of_nat w + 1) with (Z.of_nat (S w)) by lia. lia.
  - replace (Z.of_nat w + 1) with (Z.of_nat (S w)) by lia.
    replace (results rd k (wrapu64 (a + Z.of_nat w + 1)) m) with (results rd k (a + Z.of_nat (S w)) m).
    + apply IH. lia.
    + apply results_ext. intros i. rewrite idx_wrap. unfold idx. f_equal. f_equal. lia.
Qed.

(* for every ready list without duplicates (k >= 2), every start cursor and every N (no wrap), every
   window examined by strict_ok passes: the checker never raises a false alarm on the model *)
Theorem spec_strict rd :
  let k := Z.of_nat (List.length rd) in
  2 <= k -> NoDup rd ->
  forall m n a, 0 <= a -> a + Z.of_nat n < two64 ->
  suffixes_ok m (fc_ok k) rd (map pres_code (results rd k a n)) = true.
Proof.
  intros k Hk ND. induction m as [|m IH]; intros n a Ha Hw; [reflexivity|].
  cbn [suffixes_ok]. apply andb_true_iff. split.
  - pose proof (prefixes_model rd a Hk ND Ha n 0%nat ltac:(lia)) as P. fold k in P.
    simpl results in P. replace (a + Z.of_nat 0) with a in P by lia.
    replace (map (fun e => pcount e []) rd) with (map (fun _ : Z => 0) rd) in P by (apply map_ext; reflexivity).
    exact P.
  - destruct n as [|n']; [reflexivity|]. rewrite results_cons. cbn [map].
    replace (results rd k (wrapu64 (a + 1)) n') with (results rd k (a + 1) n')
      by (apply results_ext; intros i; rewrite idx_wrap; reflexivity).
    apply IH; lia.
Qed.

(* ------------------------------------------------------------------------- *)
(* windows that contain Syncs: only ADDING or REMOVING a server resets cursors  *)
(* ------------------------------------------------------------------------- *)

(* an op of a window in which the ready set is stable: a pick with upstream list [ups], or a
   ClusterInfo.Sync that adds / removes no server and leaves the disabled flags as they are
   (identical object re-delivered, or an edit of flow control / logging / other policies) *)
Definition window_op (s0 : cstate) (ups : eplist) (o : cop) : Prop :=
  o = OPick ups \/
  (exists es ds, o = OServers es ds /\ same_set es (servers s0) = true /\
                 (forall e, zin e ds = zin e (disabled s0))) \/
  (* a status write that changes nothing: the health checker records the result the endpoint already has *)
  (exists e, o = OReady e (zin e (readyset s0))).

Definition is_pick (o : cop) : bool := match o with OPick _ => true | _ => false end.
Definition npicks (ops : list cop) : nat := List.length (filter is_pick ops).
Definition pickres (ops : list cop) (rs : list pres) : list pres :=
  map snd (filter (fun p => is_pick (fst p)) (combine ops rs)).

Lemma pop_ext cur ups ok ok' : (forall e, ok e = ok' e) -> pop cur ups ok = pop cur ups ok'.
Proof. intros H. unfold pop. rewrite (filter_ext ok ok' H). reflexivity. Qed.

Lemma filter_all_true {A} (f : A -> bool) l : (forall x, In x l -> f x = true) -> filter f l = l.
Proof.
  induction l as [|x r IH]; intros H; [reflexivity|]. simpl. rewrite (H x (or_introl eq_refl)). f_equal.
  apply IH. intros y Hy. apply H. right. exact Hy.
Qed.

Lemma zin_In x l : zin x l = true <-> In x l.
Proof.
  unfold zin. rewrite existsb_exists. split.
  - intros [y [Hy E]]. apply Z.eqb_eq in E. subst. exact Hy.
  - intros H. exists x. split; [exact H|apply Z.eqb_refl].
Qed.

(* recording the health an endpoint already has leaves the whole state as it is *)
Lemma noop_write s e : fst (cstep s (OReady e (zin e (readyset s)))) = s.
Proof.
  unfold cstep. destruct (negb (zin e (servers s))); [reflexivity|]. cbn [fst].
  destruct (zin e (readyset s)) eqn:Z.
  - destruct s; reflexivity.
  - rewrite filter_all_true; [destruct s; reflexivity|].
    intros x Hx. destruct (x =? e) eqn:E; [|reflexivity].
    assert (x = e) by lia. subst x. apply zin_In in Hx. congruence.
Qed.

Lemma window_picks s0 ups : forall ops s,
  servers s = servers s0 -> readyset s = readyset s0 -> (forall e, zin e (disabled s) = zin e (disabled s0)) ->
  (forall e, is_ok s e = is_ok s0 e) ->
  Forall (window_op s0 ups) ops ->
  pickres ops (crun s ops) = snd (pops (curs s) (repeat ups (npicks ops)) (is_ok s0)).
Proof.
  induction ops as [|o r IH]; intros s Hs Hr Hd Hok W; [reflexivity|].
  inversion W as [|? ? W1 W2]; subst.
  destruct W1 as [->|[(es & ds & -> & SS & DS)|(e & ->)]].
  - (* a pick *)
    unfold npicks, pickres. cbn [crun cstep filter is_pick List.length repeat pops].
    rewrite (pop_ext (curs s) ups (is_ok s) (is_ok s0) Hok).
    destruct (pop (curs s) ups (is_ok s0)) as [c p] eqn:E.
    set (s1 := {| servers := servers s; readyset := readyset s; disabled := disabled s; curs := c |}).
    specialize (IH s1 Hs Hr Hd Hok W2). unfold npicks, pickres in IH. cbn [curs s1] in IH.
    cbn [combine filter fst is_pick map snd].
    destruct (pops c (repeat ups (List.length (filter is_pick r))) (is_ok s0)) as [c2 l] eqn:E2.
    cbn [snd] in *. f_equal. exact IH.
  - (* a Sync that adds / removes nothing: cursors kept *)
    unfold npicks, pickres. cbn [crun cstep filter is_pick].
    rewrite Hs, SS.
    set (s1 := {| servers := servers s0; readyset := readyset s; disabled := ds; curs := curs s |}).
    cbn [combine filter fst is_pick].
    assert (Hok1 : forall e, is_ok s1 e = is_ok s0 e).
    { intros e. rewrite <- Hok. unfold is_ok, s1; cbn [servers readyset disabled]. rewrite Hs, DS, Hd. reflexivity. }
    specialize (IH s1 eq_refl Hr DS Hok1 W2). unfold npicks, pickres in IH. exact IH.
  - (* a status write that changes nothing *)
    unfold npicks, pickres. cbn [crun filter is_pick]. rewrite <- Hr.
    pose proof (noop_write s e) as NW.
    destruct (cstep s (OReady e (zin e (readyset s)))) as [s1 x] eqn:E. cbn [fst] in NW. subst s1.
    cbn [combine filter fst is_pick].
    specialize (IH s Hs Hr Hd Hok W2). unfold npicks, pickres in IH. exact IH.
Qed.

(* C14_strict across Syncs: in a window whose ops are picks of one policy (explicit subset [ups]) and Syncs that
   add or remove NO server and change no disabled flag, every ready endpoint gets floor(N/k) or ceil(N/k) of the
   N picks — however many such Syncs are interleaved, whatever else they edit *)
Theorem strict_sync s ups ops e :
  let rd := filter (is_ok s) ups in
  let k := Z.of_nat (List.length rd) in
  let N := Z.of_nat (npicks ops) in
  2 <= k -> NoDup rd -> In e rd ->
  0 <= get (curs s) rd -> get (curs s) rd + N < two64 ->
  Forall (window_op s ups) ops ->
  N / k <= pcount e (pickres ops (crun s ops)) <= ceil_div N k.
Proof.
  intros rd k N Hk ND Hin H0 Hw W.
  rewrite (window_picks s ups ops s eq_refl eq_refl (fun _ => eq_refl) (fun _ => eq_refl) W).
  assert (Hw' : get (curs s) rd + Z.of_nat 0 + Z.of_nat (npicks ops) < two64) by (unfold N in Hw; lia).
  pose proof (strict (curs s) ups (is_ok s) e 0 (npicks ops) Hk ND Hin H0 Hw') as S.
  cbn [Nat.add skipn] in S. exact S.
Qed.

(* ------------------------------------------------------------------------- *)
(* request level: one cursor step per FORWARDED request                        *)
(* ------------------------------------------------------------------------- *)

Definition qres_code (x : qres) : Z := match x with QRefused => -3 | QNone => -2 | QOut p => pres_code p end.

Fixpoint nfwd (zero : bool) (ops : list qop) : nat :=
  match ops with
  | [] => O
  | QLimit b :: r => nfwd b r
  | QReq :: r => if zero then nfwd zero r else S (nfwd false r)
  end.

Lemma forwarded_pops ups ok : forall ops s,
  forwarded (qrun ups ok s ops) = snd (pops (qcur s) (repeat ups (nfwd (qzero s) ops)) ok).
Proof.
  induction ops as [|o r IH]; intros s; [reflexivity|].
  destruct o as [|b]; cbn [qrun qstep nfwd].
  - destruct (qzero s) eqn:Z.
    + cbn [forwarded]. rewrite IH, Z. reflexivity.
    + destruct (pop (qcur s) ups ok) as [c p] eqn:E. cbn [forwarded repeat pops]. rewrite E.
      rewrite IH. cbn [qcur qzero].
      destruct (pops c (repeat ups (nfwd false r)) ok) as [c2 l]. reflexivity.
  - cbn [forwarded]. rewrite IH. reflexivity.
Qed.

(* the traffic of a policy: whatever mix of forwarded and refused (429) requests and flow-control Syncs,
   the endpoints that received the forwarded requests are the Pop sequence of the policy's ready list, so
   each of the k ready endpoints receives floor(F/k) or ceil(F/k) of the F forwarded requests *)
Theorem request_level_even ups ok s ops e :
  let rd := filter ok ups in
  let k := Z.of_nat (List.length rd) in
  let F := Z.of_nat (nfwd (qzero s) ops) in
  2 <= k -> NoDup rd -> In e rd ->
  0 <= get (qcur s) rd -> get (qcur s) rd + F < two64 ->
  forwarded (qrun ups ok s ops) = snd (pops (qcur s) (repeat ups (nfwd (qzero s) ops)) ok) /\
  F / k <= pcount e (forwarded (qrun ups ok s ops)) <= ceil_div F k.
Proof.
  intros rd k F Hk ND Hin H0 Hw. split; [apply forwarded_pops|].
  rewrite forwarded_pops.
  assert (Hw' : get (qcur s) rd + Z.of_nat 0 + Z.of_nat (nfwd (qzero s) ops) < two64) by (unfold F in Hw; lia).
  pose proof (strict (qcur s) ups ok e 0 (nfwd (qzero s) ops) Hk ND Hin H0 Hw') as S.
  cbn [Nat.add skipn] in S. exact S.
Qed.

(* picks under interleaved writes that change nothing (and Syncs that add / remove nothing) = the picks alone *)
Theorem idempotent_status_write_invisible s ups ops :
  Forall (window_op s ups) ops ->
  pickres ops (crun s ops) = snd (pops (curs s) (repeat ups (npicks ops)) (is_ok s)) /\
  pickres ops (crun s ops) = pickres (filter is_pick ops) (crun s (filter is_pick ops)).
Proof.
  intros W.
  pose proof (window_picks s ups ops s eq_refl eq_refl (fun _ => eq_refl) (fun _ => eq_refl) W) as A.
  split; [exact A|]. rewrite A.
  assert (W' : Forall (window_op s ups) (filter is_pick ops)).
  { apply Forall_forall. intros o Ho. apply filter_In in Ho as [Ho _].
    rewrite Forall_forall in W. apply W, Ho. }
  rewrite (window_picks s ups (filter is_pick ops) s eq_refl eq_refl (fun _ => eq_refl) (fun _ => eq_refl) W').
  unfold npicks. assert (FF : filter is_pick (filter is_pick ops) = filter is_pick ops).
  { clear. induction ops as [|o r IH]; [reflexivity|]. simpl. destruct (is_pick o) eqn:E; simpl; rewrite ?E, IH; reflexivity. }
  rewrite FF. reflexivity.
Qed.
