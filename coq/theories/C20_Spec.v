(* C20 — the property as an executable checker over observations only:
   the operation, the stored object, and the object the real code would persist. *)
From KG Require Import Prelude C20_Model.
Open Scope Z_scope.

Inductive opk := OpCreate | OpUpdate | OpStatus.

(* "did X change": observable value of a member; a nil and an empty collection are the same value
   (identical wire form: both are omitted) *)
Definition same_payload (a b : payload) : bool := payload_eqb Semantic a b.
Definition same_kv (a b : coll (Z * Z)) : bool := kv_eqb Semantic a b.

(* updating the status subresource never changes spec or labels (nor the generation) *)
Definition status_keeps_ok (op : opk) (stored res : obj) : bool :=
  match op with
  | OpStatus => (same_payload (spec res) (spec stored) && same_kv (labels res) (labels stored) && (gen res =? gen stored))%bool
  | _ => true
  end.
(* updating the main resource of a kind served with a status subresource never changes status *)
Definition main_keeps_status_ok (op : opk) (sub : bool) (stored res : obj) : bool :=
  match op with
  | OpUpdate => if sub then same_payload (status res) (status stored) else true
  | _ => true
  end.
(* creation sets generation 1 and, for kinds with a status subresource, clears status *)
Definition create_ok (op : opk) (sub : bool) (res : obj) : bool :=
  match op with
  | OpCreate => ((gen res =? 1) && (if sub then same_payload (status res) zero_payload else true))%bool
  | _ => true
  end.
(* main-resource update: generation + 1 exactly when spec or annotations changed, same otherwise *)
Definition generation_ok (op : opk) (stored res : obj) : bool :=
  match op with
  | OpUpdate =>
      if (same_payload (spec res) (spec stored) && same_kv (annotations res) (annotations stored))%bool
      then gen res =? gen stored
      else gen res =? gen stored + 1
  | _ => true
  end.

(* a rejected request stores nothing: every clause holds *)
Definition clauses (op : opk) (sub : bool) (stored : obj) (out : outcome) : list bool :=
  match out with
  | Stored res => [status_keeps_ok op stored res; main_keeps_status_ok op sub stored res; create_ok op sub res; generation_ok op stored res]
  | _ => [true; true; true; true]
  end.
