(* C20 — case format of the correspondence run and its evaluator. *)
From KG Require Import Prelude C20_Model C20_Spec.
Open Scope Z_scope.

Record case := {
  ckind : kind;
  cop : opk;
  cold : obj;             (* stored object (ignored for create) *)
  cnew : obj;             (* submitted object *)
  oout : outcome;         (* observed: the object to be STORED, i.e. what the whole rest.BeforeCreate/BeforeUpdate (PrepareFor*, validation, Canonicalize) left *)
  oold : option obj;      (* observed: stored object after the call (updates only) *)
  osub : bool;            (* observed: "<resource>/status" is in the storage map *)
}.

Definition model_out (k : kind) (op : opk) (old new : obj) : outcome :=
  match op with
  | OpCreate => step_create (cfg k) new
  | OpUpdate => step_update_main (cfg k) old new
  | OpStatus => step_update_status (cfg k) old new
  end.

Definition outcome_eqb (a b : outcome) : bool :=
  match a, b with
  | Rejected, Rejected | NoEndpoint, NoEndpoint => true
  | Stored x, Stored y => obj_rep_eqb x y
  | _, _ => false
  end.

(* clause layout: agree, status_keeps, main_keeps_status, create, generation *)
Definition eval (c : case) : list bool :=
  (outcome_eqb (model_out (ckind c) (cop c) (cold c) (cnew c)) (oout c)
   && Bool.eqb (served_sub (cfg (ckind c))) (osub c)
   && match oold c with Some o => obj_rep_eqb o (cold c) | None => true end)%bool
  :: clauses (cop c) (osub c) (cold c) (oout c).
