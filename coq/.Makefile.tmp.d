theories/Prelude.vo theories/Prelude.glob theories/Prelude.v.beautified theories/Prelude.required_vo: theories/Prelude.v 
theories/Prelude.vio: theories/Prelude.v 
theories/Prelude.vos theories/Prelude.vok theories/Prelude.required_vos: theories/Prelude.v 
theories/C13_Model.vo theories/C13_Model.glob theories/C13_Model.v.beautified theories/C13_Model.required_vo: theories/C13_Model.v theories/Prelude.vo
theories/C13_Model.vio: theories/C13_Model.v theories/Prelude.vio
theories/C13_Model.vos theories/C13_Model.vok theories/C13_Model.required_vos: theories/C13_Model.v theories/Prelude.vos
theories/C13_Spec.vo theories/C13_Spec.glob theories/C13_Spec.v.beautified theories/C13_Spec.required_vo: theories/C13_Spec.v theories/Prelude.vo theories/C13_Model.vo
theories/C13_Spec.vio: theories/C13_Spec.v theories/Prelude.vio theories/C13_Model.vio
theories/C13_Spec.vos theories/C13_Spec.vok theories/C13_Spec.required_vos: theories/C13_Spec.v theories/Prelude.vos theories/C13_Model.vos
theories/C13_Check.vo theories/C13_Check.glob theories/C13_Check.v.beautified theories/C13_Check.required_vo: theories/C13_Check.v theories/Prelude.vo theories/C13_Model.vo theories/C13_Spec.vo
theories/C13_Check.vio: theories/C13_Check.v theories/Prelude.vio theories/C13_Model.vio theories/C13_Spec.vio
theories/C13_Check.vos theories/C13_Check.vok theories/C13_Check.required_vos: theories/C13_Check.v theories/Prelude.vos theories/C13_Model.vos theories/C13_Spec.vos
